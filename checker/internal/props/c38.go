package props

import (
	"go/ast"
	"go/constant"
	"go/token"
	"go/types"
	"sort"
	"strings"

	"verif/checker/internal/core"
	"verif/checker/internal/flow"
)

func init() {
	fr, ms := "x/jsonrpc2/frame.go", "x/jsonrpc2/messages.go"
	register(&Prop{
		ID:        "C38",
		Title:     "JSON-RPC framing round-trips any message stream",
		Technique: "path-sensitive bound/guard analysis of headerReader.Read on go/cfg, writer/reader constant agreement, and wire-field mapping symmetry between marshal and DecodeMessage",
		Explanation: "Decides for every byte stream and message that (1) the body buffer is allocated only with a Content-Length that was parsed by ParseInt(base 10, ≤32 bits), whose error was tested, and that is known > 0 on every path to make([]byte, n) — no panic, no unbounded allocation; the body is read only by io.ReadFull into exactly that buffer, the header only line-wise, and every slice index derived from a search is known non-negative where it is used; " +
			"(2) the header name and blank-line terminator the writer emits are the ones the reader's switch recognises, and the length written is len() of exactly the bytes written next; " +
			"(3) the (wire field ↔ API field) pairs written by Request.marshal/Response.marshal are the pairs read back by DecodeMessage, the ID type switch covers the JSON kinds and ends in an error default, the version tag written is the one checked, and toWireError hands an existing *wireError through with all its fields (code, message, data); no unchecked type assertion.",
		NotCovered: "JSON value round-trip below the field level (e.g. integer IDs above 2^53 pass through float64), and ordering/atomicity of concurrent writers (C39).",
		Run:        runC38,
		Controls: []Control{
			{Name: "negative-length", File: fr, Old: "\t\t\tif length <= 0 {\n\t\t\t\treturn nil, total, fmt.Errorf(\"invalid Content-Length: %v\", length)\n\t\t\t}\n", New: "", Expect: "bounded-read/length-positive"},
			{Name: "parse-error-ignored", File: fr, Old: "if length, err = strconv.ParseInt(value, 10, 32); err != nil {\n\t\t\t\treturn nil, total, fmt.Errorf(\"failed parsing Content-Length: %v\", value)\n\t\t\t}", New: "length, _ = strconv.ParseInt(value, 10, 32)", Expect: "bounded-read/parse-error-checked"},
			{Name: "parse-64-bits", File: fr, Old: "strconv.ParseInt(value, 10, 32)", New: "strconv.ParseInt(value, 10, 64)", Expect: "bounded-read/parse-bits"},
			{Name: "missing-header-allowed", File: fr, Old: "\tif length == 0 {\n\t\treturn nil, total, fmt.Errorf(\"missing Content-Length header\")\n\t}\n", New: "", Expect: "bounded-read/length-positive"},
			{Name: "colon-unchecked", File: fr, Old: "\t\tif colon < 0 {\n\t\t\treturn nil, total, fmt.Errorf(\"invalid header line %q\", line)\n\t\t}\n", New: "", Expect: "bounded-read/index-nonneg"},
			{Name: "read-partial-body", File: fr, Old: "n, err := io.ReadFull(r.in, data)", New: "n, err := r.in.Read(data)", Expect: "bounded-read/body-readfull"},
			{Name: "header-name-drift", File: fr, Old: "\"Content-Length: %v\\r\\n\\r\\n\"", New: "\"Content-length: %v\\r\\n\\r\\n\"", Expect: "writer-reader/header-name"},
			{Name: "length-of-other-buffer", File: fr, Old: "\"Content-Length: %v\\r\\n\\r\\n\", len(data))", New: "\"Content-Length: %v\\r\\n\\r\\n\", len(data)+1)", Expect: "writer-reader/length-of-payload"},
			{Name: "no-blank-line", File: fr, Old: "\"Content-Length: %v\\r\\n\\r\\n\"", New: "\"Content-Length: %v\\r\\n\"", Expect: "writer-reader/terminator"},
			{Name: "decode-drops-params", File: ms, Old: "\t\t\tID:     id,\n\t\t\tParams: msg.Params,\n", New: "\t\t\tID:     id,\n", Expect: "field-symmetry/Request"},
			{Name: "marshal-drops-result", File: ms, Old: "\tto.Result = msg.Result\n", New: "", Expect: "field-symmetry/Response"},
			{Name: "wire-error-rebuilt", File: ms, Old: "\tif err, ok := err.(*wireError); ok {\n\t\t// already a wire error, just use it\n\t\treturn err\n\t}\n", New: "", Expect: "wire-error/pass-through"},
			{Name: "id-default-accepts", File: ms, Old: "\tdefault:\n\t\treturn nil, fmt.Errorf(\"invalid message id type <%T>%v\", v, v)\n", New: "\tdefault:\n", Expect: "id-switch/default-error"},
			{Name: "version-unchecked", File: ms, Old: "\tif msg.VersionTag != wireVersion {", New: "\tif msg.VersionTag == \"\" {", Expect: "version-tag/checked"},
		},
	})
}

func runC38(c *core.Check) {
	prog := c.Load("./x/jsonrpc2")
	pk := prog.Pkg("./x/jsonrpc2")
	if pk == nil {
		return
	}
	info := pk.TypesInfo
	c.Trust("golang.org/x/tools@v0.29.0 go/cfg", "encoding/json field tags")
	read := prog.FuncDecl("./x/jsonrpc2", "headerReader.Read")
	write := prog.FuncDecl("./x/jsonrpc2", "headerWriter.Write")
	decode := prog.FuncDecl("./x/jsonrpc2", "DecodeMessage")
	encode := prog.FuncDecl("./x/jsonrpc2", "EncodeMessage")
	toWire := prog.FuncDecl("./x/jsonrpc2", "toWireError")
	if read == nil || write == nil || decode == nil || encode == nil || toWire == nil {
		return
	}
	hr := prog.NamedType("./x/jsonrpc2", "headerReader")
	fIn := fieldVar(hr, "in")
	fieldOf := func(e ast.Expr) *types.Var {
		sel, ok := ast.Unparen(e).(*ast.SelectorExpr)
		if !ok {
			return nil
		}
		if s := info.Selections[sel]; s != nil {
			v, _ := s.Obj().(*types.Var)
			return v
		}
		return nil
	}

	// ---------- (1) bounded read
	var lenVar, errVar, dataVar types.Object
	var parse *ast.CallExpr
	var idxVars = map[types.Object]bool{}
	ast.Inspect(read.Body, func(n ast.Node) bool {
		as, ok := n.(*ast.AssignStmt)
		if !ok || len(as.Rhs) != 1 {
			return true
		}
		call, ok := ast.Unparen(as.Rhs[0]).(*ast.CallExpr)
		if !ok {
			return true
		}
		switch name := pkgFuncName(info, call); {
		case name == "strconv.ParseInt" || name == "strconv.Atoi" || name == "strconv.ParseUint":
			parse = call
			lenVar = identObj(info, as.Lhs[0])
			if len(as.Lhs) == 2 {
				errVar = identObj(info, as.Lhs[1])
			}
		case strings.HasPrefix(name, "strings.Index") || strings.HasPrefix(name, "strings.LastIndex") || strings.HasPrefix(name, "bytes.Index"):
			if o := identObj(info, as.Lhs[0]); o != nil {
				idxVars[o] = true
			}
		default:
			if id, ok := call.Fun.(*ast.Ident); ok && id.Name == "make" && len(call.Args) == 2 {
				dataVar = identObj(info, as.Lhs[0])
			}
		}
		return true
	})
	if parse == nil || lenVar == nil {
		c.Undecided("bounded-read", "shape", read.Pos(), "no strconv.ParseInt assignment found in headerReader.Read")
		return
	}
	bitsOK, baseOK := false, false
	if pkgFuncName(info, parse) == "strconv.ParseInt" && len(parse.Args) == 3 {
		if tv := info.Types[parse.Args[1]]; tv.Value != nil && tv.Value.String() == "10" {
			baseOK = true
		}
		if tv := info.Types[parse.Args[2]]; tv.Value != nil && tv.Value.Kind() == constant.Int {
			if v, ok := constant.Int64Val(tv.Value); ok && v >= 8 && v <= 32 {
				bitsOK = true
			}
		}
	}
	c.Decide(bitsOK && baseOK, "bounded-read", "parse-bits", parse.Pos(), "Content-Length is parsed as a base-10 integer of at most 32 bits",
		"Content-Length is not parsed with strconv.ParseInt(value, 10, ≤32): a declared length beyond the int/allocation range reaches make([]byte, n), which panics (makeslice: len out of range) on a malformed stream")

	const (
		bNonNeg flow.State = 1 << iota
		bNonZero
		bPendErr
		bErrNil
		bErrNonNil
		bIdxNonNeg
		bIdxAssigned
		bReadOK
		bReadPend
	)
	type obs struct {
		pos token.Pos
		st  flow.State
	}
	var makes, slices, decodes []obs
	var bodyReads []*ast.CallExpr
	var readVarErr types.Object
	p := &flow.Problem{Body: read.Body, Info: info, Init: bNonNeg}
	p.Node = func(n ast.Node, st flow.State, record bool) flow.State {
		// slice / index expressions that use a searched index
		if record {
			ast.Inspect(n, func(m ast.Node) bool {
				switch x := m.(type) {
				case *ast.FuncLit:
					return false
				case *ast.SliceExpr:
					for _, e := range []ast.Expr{x.Low, x.High} {
						if e == nil {
							continue
						}
						uses := false
						ast.Inspect(e, func(k ast.Node) bool {
							if id, ok := k.(*ast.Ident); ok && idxVars[info.Uses[id]] {
								uses = true
							}
							return true
						})
						if uses {
							slices = append(slices, obs{x.Pos(), st})
						}
					}
				case *ast.IndexExpr:
					if id, ok := ast.Unparen(x.Index).(*ast.Ident); ok && idxVars[info.Uses[id]] {
						slices = append(slices, obs{x.Pos(), st})
					}
				}
				return true
			})
		}
		for _, call := range flow.Calls(n) {
			name := pkgFuncName(info, call)
			if id, ok := call.Fun.(*ast.Ident); ok && id.Name == "make" && len(call.Args) >= 2 && identObj(info, call.Args[1]) == lenVar {
				if record {
					makes = append(makes, obs{call.Pos(), st})
				}
			}
			if name == "io.ReadFull" && len(call.Args) == 2 && fieldOf(call.Args[0]) == fIn && identObj(info, call.Args[1]) == dataVar && dataVar != nil {
				st |= bReadPend
				if record {
					dup := false
					for _, b := range bodyReads {
						if b == call {
							dup = true
						}
					}
					if !dup {
						bodyReads = append(bodyReads, call)
					}
				}
			}
			if core.IsFunc(calleeObj(info, call), pk.PkgPath, "DecodeMessage") && record {
				decodes = append(decodes, obs{call.Pos(), st})
			}
		}
		if as, ok := n.(*ast.AssignStmt); ok {
			for i, l := range as.Lhs {
				o := identObj(info, l)
				if o == nil {
					continue
				}
				if o == lenVar {
					st &^= bNonNeg | bNonZero
				}
				if o == errVar || o == readVarErr {
					st &^= bErrNil | bErrNonNil
					if len(as.Rhs) == 1 {
						if call, ok := ast.Unparen(as.Rhs[0]).(*ast.CallExpr); ok {
							if call == parse {
								st |= bPendErr
							}
						}
					}
				}
				if idxVars[o] {
					st &^= bIdxNonNeg
					st |= bIdxAssigned
				}
				_ = i
			}
			// blank identifier swallowing the parse error
			if len(as.Rhs) == 1 && ast.Unparen(as.Rhs[0]) == ast.Expr(parse) {
				if len(as.Lhs) == 2 {
					if id, ok := as.Lhs[1].(*ast.Ident); ok && id.Name == "_" {
						st |= bPendErr
					}
				}
			}
		}
		return st
	}
	ast.Inspect(read.Body, func(n ast.Node) bool {
		if as, ok := n.(*ast.AssignStmt); ok && len(as.Rhs) == 1 && len(as.Lhs) == 2 {
			if call, ok := ast.Unparen(as.Rhs[0]).(*ast.CallExpr); ok && pkgFuncName(info, call) == "io.ReadFull" {
				readVarErr = identObj(info, as.Lhs[1])
			}
		}
		return true
	})
	p.Edge = func(cond ast.Expr, truth bool, st flow.State) (flow.State, bool) {
		e := ast.Unparen(cond)
		if x, nonNilOnTrue, ok := flow.NilTest(e); ok {
			o := identObj(info, x)
			if o != nil && (o == errVar || o == readVarErr) {
				if truth == nonNilOnTrue {
					if st&bErrNil != 0 {
						return st, false
					}
					return st | bErrNonNil, true
				}
				if st&bErrNonNil != 0 {
					return st, false
				}
				st |= bErrNil
				st &^= bPendErr
				if st&bReadPend != 0 {
					st = (st &^ bReadPend) | bReadOK
				}
				return st, true
			}
			return st, true
		}
		be, ok := e.(*ast.BinaryExpr)
		if !ok {
			return st, true
		}
		lit := func(e ast.Expr) (int64, bool) {
			if tv := info.Types[e]; tv.Value != nil && tv.Value.Kind() == constant.Int {
				return constant.Int64Val(tv.Value)
			}
			return 0, false
		}
		o := identObj(info, be.X)
		v, isLit := lit(be.Y)
		if o == nil || !isLit || v != 0 {
			return st, true
		}
		apply := func(nonNegBit, nonZeroBit flow.State) (flow.State, bool) {
			switch be.Op {
			case token.LEQ: // x <= 0
				if !truth {
					return st | nonNegBit | nonZeroBit, true
				}
			case token.LSS: // x < 0
				if !truth {
					return st | nonNegBit, true
				}
			case token.GTR: // x > 0
				if truth {
					return st | nonNegBit | nonZeroBit, true
				}
			case token.GEQ:
				if truth {
					return st | nonNegBit, true
				}
			case token.EQL: // x == 0
				if !truth {
					return st | nonZeroBit, true
				}
			case token.NEQ:
				if truth {
					return st | nonZeroBit, true
				}
			}
			return st, true
		}
		if o == lenVar {
			return apply(bNonNeg, bNonZero)
		}
		if idxVars[o] {
			return apply(bIdxNonNeg, 0)
		}
		return st, true
	}
	res := flow.Solve(p)
	c.Analysed("cfg_blocks_Read", res.Blocks)
	if len(makes) == 0 {
		c.Bad("bounded-read", "length-positive", read.Pos(), "the body buffer is not allocated as make([]byte, <parsed Content-Length>)")
	} else {
		pos, okPos, okErr := true, makes[0].pos, true
		for _, m := range makes {
			if m.st&bNonNeg == 0 || m.st&bNonZero == 0 {
				pos = false
			}
			if m.st&bPendErr != 0 {
				okErr = false
			}
		}
		c.Decide(pos, "bounded-read", "length-positive", okPos, "on every path to make([]byte, n) the length is known > 0",
			"make([]byte, length) is reachable with a Content-Length that is not known to be > 0 (negative ⇒ runtime panic 'makeslice: len out of range'; zero/missing ⇒ an empty body is decoded): a malformed stream crashes the reader instead of yielding an error")
		c.Decide(okErr && errVar != nil, "bounded-read", "parse-error-checked", okPos, "the ParseInt error is tested before the value is used",
			"the error of parsing Content-Length is not tested (or is discarded) before the value reaches make([]byte, n)")
	}
	idxOK := true
	var idxPos token.Pos = read.Pos()
	for _, s := range slices {
		if s.st&bIdxAssigned != 0 && s.st&bIdxNonNeg == 0 {
			idxOK, idxPos = false, s.pos
		}
	}
	c.Decide(idxOK && len(slices) > 0, "bounded-read", "index-nonneg", idxPos, core.Sprintf("%d slice/index uses of a searched position, all behind a `< 0` test", len(slices)),
		"a header line is sliced with the result of strings.Index* without a dominating `< 0` test: a line without ':' panics (slice bounds out of range)")
	// the body is read only by ReadFull into data, and DecodeMessage sees it only after the error test
	rdOK := len(bodyReads) == 1
	for _, d := range decodes {
		if d.st&bReadOK == 0 {
			rdOK = false
		}
	}
	// census of every use of r.in
	okUses := true
	nUses := 0
	ast.Inspect(read.Body, func(n ast.Node) bool {
		call, ok := n.(*ast.CallExpr)
		if !ok {
			return true
		}
		if sel, ok := call.Fun.(*ast.SelectorExpr); ok && fieldOf(sel.X) == fIn {
			nUses++
			if sel.Sel.Name != "ReadString" && sel.Sel.Name != "ReadLine" && sel.Sel.Name != "ReadBytes" && sel.Sel.Name != "ReadSlice" {
				okUses = false
			}
		}
		for _, a := range call.Args {
			if fieldOf(a) == fIn {
				nUses++
				if pkgFuncName(info, call) != "io.ReadFull" {
					okUses = false
				}
			}
		}
		return true
	})
	c.Decide(rdOK && okUses && len(decodes) > 0, "bounded-read", "body-readfull", read.Pos(), core.Sprintf("%d uses of the input: header lines and one io.ReadFull into the exact-size buffer; decoded only after its error is nil", nUses),
		"the body must be read by exactly one io.ReadFull(r.in, data) into the buffer sized by Content-Length, its error tested before DecodeMessage, and the input touched otherwise only line-wise: a short read decodes a truncated message or bytes past the declared length are consumed")

	// ---------- (2) writer/reader constants
	var format string
	var fcall *ast.CallExpr
	ast.Inspect(write.Body, func(n ast.Node) bool {
		if call, ok := n.(*ast.CallExpr); ok && pkgFuncName(info, call) == "fmt.Fprintf" && len(call.Args) >= 2 {
			if tv := info.Types[call.Args[1]]; tv.Value != nil && tv.Value.Kind() == constant.String {
				format = constant.StringVal(tv.Value)
				fcall = call
			}
		}
		return true
	})
	var labels []string
	ast.Inspect(read.Body, func(n ast.Node) bool {
		if cc, ok := n.(*ast.CaseClause); ok {
			for _, e := range cc.List {
				if tv := info.Types[e]; tv.Value != nil && tv.Value.Kind() == constant.String {
					labels = append(labels, constant.StringVal(tv.Value))
				}
			}
		}
		return true
	})
	sort.Strings(labels)
	c.Analysed("reader_header_labels", labels)
	if fcall == nil {
		c.Undecided("writer-reader", "header-name", write.Pos(), "the writer does not emit its header with fmt.Fprintf and a constant format")
	} else {
		name := format
		if i := strings.IndexByte(format, ':'); i >= 0 {
			name = format[:i]
		}
		found := false
		for _, l := range labels {
			if l == name {
				found = true
			}
		}
		c.Decide(found, "writer-reader", "header-name", fcall.Pos(), "the header name written is a case label of the reader", core.Sprintf("the writer emits header %q but the reader's switch knows only %v: every message the framer writes is rejected (or read with length 0)", name, labels))
		c.Decide(strings.HasSuffix(format, "\r\n\r\n") || strings.HasSuffix(format, "\n\n"), "writer-reader", "terminator", fcall.Pos(), "the header block ends with a blank line", "the header written does not end with a blank line: the reader keeps consuming body bytes as header lines")
		// the length printed is len(data) of the data written next
		var dataW types.Object
		ast.Inspect(write.Body, func(n ast.Node) bool {
			if as, ok := n.(*ast.AssignStmt); ok && len(as.Rhs) == 1 && len(as.Lhs) == 2 {
				if call, ok := ast.Unparen(as.Rhs[0]).(*ast.CallExpr); ok && core.IsFunc(calleeObj(info, call), pk.PkgPath, "EncodeMessage") {
					dataW = identObj(info, as.Lhs[0])
				}
			}
			return true
		})
		lenOK := false
		if len(fcall.Args) == 3 {
			if lc, ok := ast.Unparen(fcall.Args[2]).(*ast.CallExpr); ok && len(lc.Args) == 1 {
				if id, ok := lc.Fun.(*ast.Ident); ok && id.Name == "len" && identObj(info, lc.Args[0]) == dataW && dataW != nil {
					lenOK = true
				}
			}
		}
		wrote := false
		ast.Inspect(write.Body, func(n ast.Node) bool {
			if call, ok := n.(*ast.CallExpr); ok && call.Pos() > fcall.End() {
				if sel, ok := call.Fun.(*ast.SelectorExpr); ok && sel.Sel.Name == "Write" && len(call.Args) == 1 && identObj(info, call.Args[0]) == dataW {
					wrote = true
				}
			}
			return true
		})
		c.Decide(lenOK && wrote, "writer-reader", "length-of-payload", fcall.Pos(), "Content-Length is len(data) of exactly the bytes written after the header", "the Content-Length written is not len() of exactly the encoded bytes that follow: the reader splits the stream at the wrong place")
	}

	// ---------- (3) field symmetry
	wire := prog.NamedType("./x/jsonrpc2", "wireCombined")
	for _, api := range []string{"Request", "Response"} {
		mfd := prog.FuncDecl("./x/jsonrpc2", api+".marshal")
		apiT := prog.NamedType("./x/jsonrpc2", api)
		if mfd == nil || apiT == nil || wire == nil {
			continue
		}
		recvObj := info.Defs[mfd.Recv.List[0].Names[0]]
		toObj := paramObj(mfd, info, 0)
		written := map[string]string{} // wire field -> api field
		ast.Inspect(mfd.Body, func(n ast.Node) bool {
			as, ok := n.(*ast.AssignStmt)
			if !ok || len(as.Lhs) != 1 || len(as.Rhs) != 1 {
				return true
			}
			sel, ok := ast.Unparen(as.Lhs[0]).(*ast.SelectorExpr)
			if !ok || identObj(info, sel.X) != toObj {
				return true
			}
			apiField := ""
			ast.Inspect(as.Rhs[0], func(m ast.Node) bool {
				if s2, ok := m.(*ast.SelectorExpr); ok && identObj(info, s2.X) == recvObj {
					apiField = s2.Sel.Name
				}
				return true
			})
			written[sel.Sel.Name] = apiField
			return true
		})
		// decode side: composite literal of api type + later assignments resp.F = msg.G
		readBack := map[string]string{}
		msgVar := types.Object(nil)
		ast.Inspect(decode.Body, func(n ast.Node) bool {
			if as, ok := n.(*ast.AssignStmt); ok && len(as.Rhs) == 1 {
				if cl, ok := ast.Unparen(as.Rhs[0]).(*ast.CompositeLit); ok && namedOf(info.TypeOf(cl)) == wire {
					msgVar = identObj(info, as.Lhs[0])
				}
			}
			return true
		})
		wireOf := func(e ast.Expr) string {
			w := ""
			ast.Inspect(e, func(m ast.Node) bool {
				switch x := m.(type) {
				case *ast.SelectorExpr:
					if identObj(info, x.X) == msgVar && msgVar != nil {
						w = x.Sel.Name
					}
				case *ast.Ident:
					if x.Name == "id" && w == "" {
						w = "ID"
					}
				}
				return true
			})
			return w
		}
		var litVars []types.Object
		ast.Inspect(decode.Body, func(n ast.Node) bool {
			switch x := n.(type) {
			case *ast.CompositeLit:
				if namedOf(info.TypeOf(x)) == apiT {
					for _, el := range x.Elts {
						if kv, ok := el.(*ast.KeyValueExpr); ok {
							if k, ok := kv.Key.(*ast.Ident); ok {
								if w := wireOf(kv.Value); w != "" {
									readBack[w] = k.Name
								}
							}
						}
					}
				}
			case *ast.AssignStmt:
				if len(x.Lhs) == 1 && len(x.Rhs) == 1 {
					if u, ok := ast.Unparen(x.Rhs[0]).(*ast.UnaryExpr); ok {
						if cl, ok := u.X.(*ast.CompositeLit); ok && namedOf(info.TypeOf(cl)) == apiT {
							litVars = append(litVars, identObj(info, x.Lhs[0]))
						}
					}
					if sel, ok := ast.Unparen(x.Lhs[0]).(*ast.SelectorExpr); ok {
						for _, lv := range litVars {
							if identObj(info, sel.X) == lv {
								if w := wireOf(x.Rhs[0]); w != "" {
									readBack[w] = sel.Sel.Name
								}
							}
						}
					}
				}
			}
			return true
		})
		same := len(written) > 0 && len(written) == len(readBack)
		for w, a := range written {
			if readBack[w] != a {
				same = false
			}
		}
		c.Decide(same, "field-symmetry", api, mfd.Pos(), core.Sprintf("marshal writes %v, DecodeMessage reads back the same pairs", written),
			core.Sprintf("the (wire field → API field) pairs written by %s.marshal %v differ from those DecodeMessage reads back %v: a field is lost or mis-assigned in a write/read round trip", api, written, readBack))
	}
	// ID switch
	{
		hasDefaultErr := false
		kinds := map[string]bool{}
		ast.Inspect(decode.Body, func(n ast.Node) bool {
			ts, ok := n.(*ast.TypeSwitchStmt)
			if !ok {
				return true
			}
			for _, s := range ts.Body.List {
				cc := s.(*ast.CaseClause)
				if cc.List == nil {
					if len(cc.Body) > 0 {
						if r, ok := cc.Body[len(cc.Body)-1].(*ast.ReturnStmt); ok && len(r.Results) == 2 && core.ExprStr(r.Results[1]) != "nil" {
							hasDefaultErr = true
						}
					}
					continue
				}
				for _, e := range cc.List {
					kinds[core.ExprStr(e)] = true
				}
			}
			return false
		})
		c.Decide(hasDefaultErr, "id-switch", "default-error", decode.Pos(), "unknown id kinds are rejected with an error", "the ID type switch has no default that returns an error: an object/array/bool id is silently treated as a missing id (a call becomes a notification and is never answered)")
		c.Decide(kinds["nil"] && kinds["float64"] && kinds["string"], "id-switch", "json-kinds", decode.Pos(), "nil, number and string ids are handled", "the ID type switch does not handle the JSON kinds nil/number(float64)/string")
	}
	// version tag
	{
		wv := pk.Types.Scope().Lookup("wireVersion")
		sets, checks := false, false
		ast.Inspect(encode.Body, func(n ast.Node) bool {
			if kv, ok := n.(*ast.KeyValueExpr); ok {
				if k, ok := kv.Key.(*ast.Ident); ok && k.Name == "VersionTag" && identObj(info, kv.Value) == wv {
					sets = true
				}
			}
			return true
		})
		ast.Inspect(decode.Body, func(n ast.Node) bool {
			if ifs, ok := n.(*ast.IfStmt); ok {
				if be, ok := ast.Unparen(ifs.Cond).(*ast.BinaryExpr); ok && be.Op == token.NEQ && identObj(info, be.Y) == wv {
					if sel, ok := ast.Unparen(be.X).(*ast.SelectorExpr); ok && sel.Sel.Name == "VersionTag" && len(ifs.Body.List) > 0 {
						if _, ok := ifs.Body.List[len(ifs.Body.List)-1].(*ast.ReturnStmt); ok {
							checks = true
						}
					}
				}
			}
			return true
		})
		c.Decide(sets && checks && wv != nil, "version-tag", "checked", decode.Pos(), "EncodeMessage writes wireVersion and DecodeMessage rejects anything else", "the version tag written by EncodeMessage is not the constant DecodeMessage compares against (or it is no longer compared): foreign/garbled objects are accepted as messages")
	}
	// toWireError pass-through
	{
		pass := false
		ast.Inspect(toWire.Body, func(n ast.Node) bool {
			ifs, ok := n.(*ast.IfStmt)
			if !ok {
				return true
			}
			as, ok := ifs.Init.(*ast.AssignStmt)
			if !ok || len(as.Lhs) != 2 || len(as.Rhs) != 1 {
				return true
			}
			ta, ok := ast.Unparen(as.Rhs[0]).(*ast.TypeAssertExpr)
			if !ok || ta.Type == nil || !strings.HasSuffix(types.ExprString(ta.Type), "wireError") {
				return true
			}
			v := identObj(info, as.Lhs[0])
			if identObj(info, ifs.Cond) != identObj(info, as.Lhs[1]) {
				return true
			}
			for _, s := range ifs.Body.List {
				if r, ok := s.(*ast.ReturnStmt); ok && len(r.Results) == 1 && identObj(info, r.Results[0]) == v {
					pass = true
				}
			}
			return true
		})
		if !pass {
			// otherwise every field of wireError must be copied
			we := prog.NamedType("./x/jsonrpc2", "wireError")
			copied := map[string]bool{}
			ast.Inspect(toWire.Body, func(n ast.Node) bool {
				if cl, ok := n.(*ast.CompositeLit); ok && namedOf(info.TypeOf(cl)) == we {
					for _, el := range cl.Elts {
						if kv, ok := el.(*ast.KeyValueExpr); ok {
							copied[kv.Key.(*ast.Ident).Name] = true
						}
					}
				}
				if as, ok := n.(*ast.AssignStmt); ok {
					for _, l := range as.Lhs {
						if sel, ok := l.(*ast.SelectorExpr); ok && namedOf(info.TypeOf(sel.X)) == we {
							copied[sel.Sel.Name] = true
						}
					}
				}
				return true
			})
			all := we != nil
			if we != nil {
				st := we.Underlying().(*types.Struct)
				for i := 0; i < st.NumFields(); i++ {
					if !copied[st.Field(i).Name()] {
						all = false
					}
				}
			}
			pass = all
		}
		c.Decide(pass, "wire-error", "pass-through", toWire.Pos(), "an error that already is a *wireError is written as it is", "toWireError neither returns an existing *wireError unchanged nor copies all of its fields: re-framing a decoded error response drops its code or `data` member (write/read round trip is lossy)")
	}
	// unchecked type assertions in the codec
	for _, fd := range []*ast.FuncDecl{read, decode, encode, toWire} {
		bad := token.NoPos
		par := parentMap(fd)
		ast.Inspect(fd.Body, func(n ast.Node) bool {
			ta, ok := n.(*ast.TypeAssertExpr)
			if !ok || ta.Type == nil {
				return true
			}
			if as, ok := par[ta].(*ast.AssignStmt); ok && len(as.Lhs) == 2 {
				return true
			}
			if vs, ok := par[ta].(*ast.ValueSpec); ok && len(vs.Names) == 2 {
				return true
			}
			bad = ta.Pos()
			return true
		})
		c.Decide(!bad.IsValid(), "no-unchecked-assert", core.FuncName(fd), bad, "", "a type assertion without comma-ok can panic on a malformed message")
	}
}
