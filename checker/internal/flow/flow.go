// Package flow is the CFG path-rule kernel (K3): a small forward analysis over
// go/cfg whose abstract value at a program point is the SET of reachable fact
// vectors (bit sets). Because whole vectors are kept apart, facts stay
// correlated along a path ("err is known non-nil" together with "chmod was
// skipped"), and an edge function may declare an edge infeasible for a vector.
// "On some path" = some vector; "on every path" = all vectors.
package flow

import (
	"go/ast"
	"go/token"
	"go/types"
	"sort"
	"strings"

	"golang.org/x/tools/go/cfg"
)

type State = uint64

// Problem describes one function body and its transfer functions.
type Problem struct {
	Body *ast.BlockStmt
	Info *types.Info
	Init State
	// Node is the transfer function of one CFG node. With record set it is the final pass:
	// the callback may note the (node, state) pair it is interested in.
	Node func(n ast.Node, in State, record bool) State
	// Multi, when set, replaces Node: a node may fork a vector into several (e.g. one per
	// exit summary of a closure that the node calls).
	Multi func(n ast.Node, in State, record bool) []State
	// Edge refines a vector along the true/false edge of a condition; feasible=false drops it.
	Edge func(cond ast.Expr, truth bool, in State) (out State, feasible bool)
	// MaxStates bounds the number of vectors per block (default 4096); exceeding it sets Overflow.
	MaxStates int
}

// Exit is one way of leaving the function, for one reachable fact vector.
type Exit struct {
	Ret   *ast.ReturnStmt // nil: falling off the end
	Pos   token.Pos
	State State
}

type Result struct {
	CFG      *cfg.CFG
	Exits    []Exit
	Blocks   int
	Reached  int
	Overflow bool
}

// MayReturn reports whether a call can return (false for panic, os.Exit, log.Fatal*, log.Panic*).
func MayReturn(info *types.Info) func(*ast.CallExpr) bool {
	return func(call *ast.CallExpr) bool {
		switch f := ast.Unparen(call.Fun).(type) {
		case *ast.Ident:
			if b, ok := info.Uses[f].(*types.Builtin); ok && b.Name() == "panic" {
				return false
			}
		case *ast.SelectorExpr:
			if fn, ok := info.Uses[f.Sel].(*types.Func); ok && fn.Pkg() != nil {
				p, n := fn.Pkg().Path(), fn.Name()
				if p == "os" && n == "Exit" {
					return false
				}
				if (p == "log" || strings.HasSuffix(p, "/log")) && (n == "Fatal" || n == "Fatalf" || n == "Fatalln" || n == "Panic" || n == "Panicf" || n == "Panicln") {
					return false
				}
			}
		}
		return true
	}
}

type set map[State]struct{}

// Solve iterates to a fixed point and then makes one recording pass.
func Solve(p *Problem) *Result {
	g := cfg.New(p.Body, MayReturn(p.Info))
	res := &Result{CFG: g, Blocks: len(g.Blocks)}
	if len(g.Blocks) == 0 {
		return res
	}
	max := p.MaxStates
	if max == 0 {
		max = 4096
	}
	in := map[*cfg.Block]set{}
	entry := g.Blocks[0]
	in[entry] = set{p.Init: {}}
	work := []*cfg.Block{entry}
	queued := map[*cfg.Block]bool{entry: true}
	for len(work) > 0 {
		b := work[0]
		work = work[1:]
		queued[b] = false
		for st := range in[b] {
			for _, s := range p.through(b.Nodes, st, false) {
				for i, succ := range b.Succs {
					o, ok := s, true
					if p.Edge != nil && len(b.Succs) == 2 && len(b.Nodes) > 0 {
						if cond, isExpr := b.Nodes[len(b.Nodes)-1].(ast.Expr); isExpr {
							o, ok = p.Edge(cond, i == 0, s)
						}
					}
					if !ok {
						continue
					}
					if in[succ] == nil {
						in[succ] = set{}
					}
					if _, have := in[succ][o]; !have {
						if len(in[succ]) >= max {
							res.Overflow = true
							continue
						}
						in[succ][o] = struct{}{}
						if !queued[succ] {
							queued[succ] = true
							work = append(work, succ)
						}
					}
				}
			}
		}
	}
	mayRet := MayReturn(p.Info)
	for _, b := range g.Blocks {
		states := in[b]
		if len(states) == 0 {
			continue
		}
		res.Reached++
		keys := make([]State, 0, len(states))
		for s := range states {
			keys = append(keys, s)
		}
		sort.Slice(keys, func(i, j int) bool { return keys[i] < keys[j] })
		for _, st := range keys {
			for _, s := range p.through(b.Nodes, st, true) {
				if len(b.Succs) == 0 {
					var ret *ast.ReturnStmt
					pos := p.Body.Rbrace
					noret := false
					if len(b.Nodes) > 0 {
						last := b.Nodes[len(b.Nodes)-1]
						if r, ok := last.(*ast.ReturnStmt); ok {
							ret = r
							pos = r.Pos()
						} else if es, ok := last.(*ast.ExprStmt); ok {
							if call, ok := es.X.(*ast.CallExpr); ok && !mayRet(call) {
								noret = true
							}
						}
					}
					if !noret {
						res.Exits = append(res.Exits, Exit{Ret: ret, Pos: pos, State: s})
					}
				}
			}
		}
	}
	return res
}

// through pushes one vector through the nodes of a block.
func (p *Problem) through(nodes []ast.Node, st State, record bool) []State {
	cur := []State{st}
	for _, n := range nodes {
		if p.Multi == nil {
			for i := range cur {
				cur[i] = p.Node(n, cur[i], record)
			}
			continue
		}
		var next []State
		seen := map[State]bool{}
		for _, c := range cur {
			for _, o := range p.Multi(n, c, record) {
				if !seen[o] {
					seen[o] = true
					next = append(next, o)
				}
			}
		}
		cur = next
	}
	return cur
}

// Calls lists the call expressions inside a CFG node in evaluation order
// (arguments before the call), not descending into function literals.
func Calls(n ast.Node) []*ast.CallExpr {
	var out []*ast.CallExpr
	var walk func(n ast.Node)
	walk = func(n ast.Node) {
		if n == nil {
			return
		}
		switch x := n.(type) {
		case *ast.FuncLit:
			return
		case *ast.CallExpr:
			walk(x.Fun)
			for _, a := range x.Args {
				walk(a)
			}
			out = append(out, x)
			return
		}
		ast.Inspect(n, func(m ast.Node) bool {
			if m == n || m == nil {
				return true
			}
			switch m.(type) {
			case *ast.FuncLit:
				return false
			case *ast.CallExpr:
				walk(m)
				return false
			}
			return true
		})
	}
	walk(n)
	return out
}

// NilTest recognises `x != nil` / `x == nil` / `nil != x`; returns the tested expression and whether
// the TRUE branch means non-nil.
func NilTest(cond ast.Expr) (x ast.Expr, nonNilOnTrue bool, ok bool) {
	be, isBin := ast.Unparen(cond).(*ast.BinaryExpr)
	if !isBin || (be.Op != token.NEQ && be.Op != token.EQL) {
		return nil, false, false
	}
	isNil := func(e ast.Expr) bool {
		id, ok := ast.Unparen(e).(*ast.Ident)
		return ok && id.Name == "nil"
	}
	switch {
	case isNil(be.Y):
		return be.X, be.Op == token.NEQ, true
	case isNil(be.X):
		return be.Y, be.Op == token.NEQ, true
	}
	return nil, false, false
}

// AssignedVars lists the variable objects a CFG node assigns or defines (top level of the node only).
func AssignedVars(n ast.Node, info *types.Info) []types.Object {
	var out []types.Object
	add := func(e ast.Expr) {
		if id, ok := ast.Unparen(e).(*ast.Ident); ok {
			if o := info.Defs[id]; o != nil {
				out = append(out, o)
			} else if o := info.Uses[id]; o != nil {
				out = append(out, o)
			}
		}
	}
	switch s := n.(type) {
	case *ast.AssignStmt:
		for _, l := range s.Lhs {
			add(l)
		}
	case *ast.ValueSpec:
		for _, nm := range s.Names {
			add(nm)
		}
	case *ast.DeclStmt:
		if gd, ok := s.Decl.(*ast.GenDecl); ok {
			for _, sp := range gd.Specs {
				if vs, ok := sp.(*ast.ValueSpec); ok {
					for _, nm := range vs.Names {
						add(nm)
					}
				}
			}
		}
	case *ast.IncDecStmt:
		add(s.X)
	case *ast.RangeStmt:
		add(s.Key)
		add(s.Value)
	}
	return out
}
