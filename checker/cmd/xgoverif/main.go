// xgoverif decides structural clauses of the goplus/gop properties from source.
//
//	xgoverif check <Cxx> [--tier quick|thorough]
//	xgoverif control <Cxx> <control-name>      (internal: one positive control, JSON on stdout)
//	xgoverif explain <replay.json>
//	xgoverif list
package main

import (
	"encoding/json"
	"fmt"
	"os"
	"os/exec"
	"path/filepath"
	"strconv"
	"strings"
	"sync"

	"verif/checker/internal/core"
	"verif/checker/internal/props"
)

func envOr(k, d string) string {
	if v := os.Getenv(k); v != "" {
		return v
	}
	return d
}

func verifDir() string {
	if v := os.Getenv("VERIF_DIR"); v != "" {
		return v
	}
	if exe, err := os.Executable(); err == nil {
		d := filepath.Dir(filepath.Dir(exe))
		if _, err := os.Stat(filepath.Join(d, "properties.jsonl")); err == nil {
			return d
		}
	}
	return "/verif"
}

func main() {
	if len(os.Args) < 2 {
		usage()
	}
	switch os.Args[1] {
	case "list":
		for _, id := range props.IDs() {
			fmt.Println(id, props.Registry[id].Title)
		}
	case "manifest":
		manifest()
	case "check":
		os.Exit(check(os.Args[2:]))
	case "control":
		os.Exit(control(os.Args[2:]))
	case "explain":
		if len(os.Args) < 3 {
			usage()
		}
		b, err := os.ReadFile(os.Args[2])
		if err != nil {
			fmt.Println(err)
			os.Exit(2)
		}
		var m map[string]any
		json.Unmarshal(b, &m)
		fmt.Printf("property %v: %v obligation %v\n  at   %v\n  rule %v\n  why  %v\n", m["property"], m["kind"], m["key"], m["pos"], m["rule"], m["detail"])
	default:
		usage()
	}
}

func usage() {
	fmt.Fprintln(os.Stderr, "usage: xgoverif check <Cxx> [--tier quick|thorough] | control <Cxx> <name> | explain <replay.json> | list")
	os.Exit(2)
}

func setup(id, tier string) (*props.Prop, *core.Check) {
	p := props.Registry[id]
	if p == nil {
		fmt.Fprintln(os.Stderr, "unknown property", id)
		os.Exit(2)
	}
	seed, _ := strconv.Atoi(os.Getenv("VERIF_SEED"))
	repo, _ := filepath.Abs(envOr("VERIF_REPO", "/repo"))
	c := core.New(id, tier, repo, verifDir(), seed)
	c.Explanation, c.NotCovered, c.Technique = p.Explanation, p.NotCovered, p.Technique
	os.Unsetenv("GOWORK")
	return p, c
}

func check(args []string) int {
	if len(args) < 1 {
		usage()
	}
	id := args[0]
	tier := envOr("VERIF_TIER", "quick")
	for i := 1; i < len(args); i++ {
		if args[i] == "--tier" && i+1 < len(args) {
			tier = args[i+1]
			i++
		} else if strings.HasPrefix(args[i], "--tier=") {
			tier = strings.TrimPrefix(args[i], "--tier=")
		}
	}
	if tier != "quick" && tier != "thorough" {
		tier = "quick"
	}
	p, c := setup(id, tier)
	func() {
		defer func() {
			if r := recover(); r != nil {
				c.Undecided("checker-panic", id, 0, fmt.Sprint("the checker panicked: ", r))
			}
		}()
		p.Run(c)
	}()
	if tier == "thorough" {
		runControls(p, c)
	}
	return c.Finish()
}

type controlOut struct {
	Outcome string   `json:"outcome"`
	Detail  string   `json:"detail"`
	Flagged []string `json:"flagged"`
}

// control runs one positive control in this process and prints its result.
func control(args []string) int {
	if len(args) < 2 {
		usage()
	}
	p, c := setup(args[0], "thorough")
	var ctl *props.Control
	for i := range p.Controls {
		if p.Controls[i].Name == args[1] {
			ctl = &p.Controls[i]
		}
	}
	out := controlOut{}
	emit := func() int {
		b, _ := json.Marshal(out)
		fmt.Println(string(b))
		return 0
	}
	if ctl == nil {
		out.Outcome, out.Detail = "skipped", "no such control"
		return emit()
	}
	file := filepath.Join(c.Repo, ctl.File)
	src, err := os.ReadFile(file)
	if err != nil || strings.Count(string(src), ctl.Old) != 1 {
		out.Outcome = "skipped"
		out.Detail = fmt.Sprintf("the fragment this control edits occurs %d times in %s (need exactly 1): the code changed, the control says nothing", strings.Count(string(src), ctl.Old), ctl.File)
		return emit()
	}
	mutated := strings.Replace(string(src), ctl.Old, ctl.New, 1)
	if ctl.Old2 != "" {
		if strings.Count(mutated, ctl.Old2) != 1 {
			out.Outcome, out.Detail = "skipped", "second fragment of the control not found exactly once"
			return emit()
		}
		mutated = strings.Replace(mutated, ctl.Old2, ctl.New2, 1)
	}
	c.Overlay = map[string][]byte{file: []byte(mutated)}
	c.Quiet = true
	func() {
		defer func() {
			if r := recover(); r != nil {
				c.Undecided("checker-panic", c.ID, 0, fmt.Sprint(r))
			}
		}()
		p.Run(c)
	}()
	c.ApplyFloors()
	hit := false
	for _, o := range c.Obligations() {
		if o.Verdict == core.Violated || o.Verdict == core.Undecided {
			out.Flagged = append(out.Flagged, o.Key)
			if o.Key == ctl.Expect {
				hit = true
			}
		}
	}
	if hit {
		out.Outcome = "detected"
	} else {
		out.Outcome = "missed"
		out.Detail = fmt.Sprintf("flagged instead: %v", out.Flagged)
	}
	return emit()
}

func runControls(p *props.Prop, c *core.Check) {
	exe, err := os.Executable()
	if err != nil {
		return
	}
	res := make([]core.ControlResult, len(p.Controls))
	sem := make(chan struct{}, 6)
	var wg sync.WaitGroup
	for i := range p.Controls {
		wg.Add(1)
		go func(i int) {
			defer wg.Done()
			sem <- struct{}{}
			defer func() { <-sem }()
			ctl := p.Controls[i]
			r := core.ControlResult{Name: ctl.Name, Expect: ctl.Expect}
			cmd := exec.Command(exe, "control", p.ID, ctl.Name)
			cmd.Env = os.Environ()
			b, err := cmd.Output()
			var o controlOut
			if err != nil || json.Unmarshal(lastLine(b), &o) != nil {
				r.Outcome, r.Detail = "missed", fmt.Sprintf("control subprocess failed: %v %s", err, string(b))
			} else {
				r.Outcome, r.Detail = o.Outcome, o.Detail
			}
			res[i] = r
		}(i)
	}
	wg.Wait()
	for _, r := range res {
		c.AddControl(r)
	}
}

func lastLine(b []byte) []byte {
	s := strings.TrimSpace(string(b))
	if i := strings.LastIndex(s, "\n"); i >= 0 {
		s = s[i+1:]
	}
	return []byte(s)
}

func manifest() {
	type level struct {
		Category  string `json:"category"`
		Text      string `json:"text"`
		DesignRef string `json:"design_ref"`
	}
	type chk struct {
		PropertyID string `json:"property_id"`
		QuickCmd   string `json:"quick_cmd"`
		Thorough   string `json:"thorough_cmd"`
		Evidence   string `json:"evidence_file"`
		Replay     string `json:"replay_cmd_template"`
		Engine     string `json:"engine"`
		Level      level  `json:"level_claimed"`
		Note       string `json:"level_note"`
		Technique  string `json:"technique"`
	}
	type na struct {
		PropertyID string `json:"property_id"`
		Reason     string `json:"reason"`
	}
	var checks []chk
	var served []string
	for _, id := range props.IDs() {
		p := props.Registry[id]
		served = append(served, id)
		checks = append(checks, chk{
			PropertyID: id,
			QuickCmd:   "bin/xgoverif check " + id + " --tier quick",
			Thorough:   "bin/xgoverif check " + id + " --tier thorough",
			Evidence:   "/verif/evidence/" + id + ".json",
			Replay:     "bin/xgoverif explain {path}",
			Engine:     "xgoverif",
			Level: level{Category: "other",
				Text:      "Static analysis (no goplus/gop code is run). " + p.Explanation + " It decides this structural clause for every input/schedule/crash point at once, not the whole behavioural property. Not covered: " + p.NotCovered,
				DesignRef: "DESIGN.md §4 " + id},
			Note:      "Trusted base: go/types, go/parser, golang.org/x/tools v0.29.0 (go/packages, go/cfg, go/ssa, callgraph), the Go 1.23.5 standard library sources used as reference siblings, and the reasoned tables inside the checker (each suppression names one symbol). The thorough tier additionally re-runs the rule on positive-control mutants applied as in-memory overlays; a missed control fails the check.",
			Technique: "static analysis: " + p.Technique,
		})
	}
	nas := []na{}
	for _, e := range props.NotApplicable {
		nas = append(nas, na{e[0], e[1]})
	}
	m := map[string]any{
		"version":   1,
		"setup_cmd": "cd /verif/checker && env -u GOWORK GOFLAGS=-mod=mod GOPROXY=off GOSUMDB=off GOTOOLCHAIN=local go build -o /verif/bin/xgoverif ./cmd/xgoverif",
		"hooks": map[string]any{
			"guard":            "verif",
			"enable":           "none needed: every check reads /repo's current source tree; no instrumentation is compiled into goplus/gop",
			"baseline_off_cmd": "/verif/tools/baseline.sh /repo",
			"source_commits":   []string{},
			"add_only":         true,
		},
		"engines": []map[string]any{{
			"name": "xgoverif", "path": "/verif/checker", "serves_properties": served,
			"kind_free_text": "repository-specific static analyser (Go, go/packages + go/types + go/cfg + go/ssa + call graph); one rule set per property, obligations keyed rule/construct, floors, positive controls as overlays",
		}},
		"checks":         checks,
		"not_applicable": nas,
		"notes":          "All checks are static: they load and type-check /repo's current working tree on every run and never execute goplus/gop code. See DESIGN.md. known_findings.jsonl lists recorded (unrepaired) defects and the fix: commits made in /repo.",
	}
	b, _ := json.MarshalIndent(m, "", " ")
	fmt.Println(string(b))
}
